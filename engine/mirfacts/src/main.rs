//! mirfacts: a rustc_private driver that serialises the type-checked MIR of every body of a
//! workspace crate (plus ADT / const / impl tables and user `unsafe` blocks) as one JSON file
//! per rustc invocation.  Injected with RUSTC_WORKSPACE_WRAPPER under `cargo +nightly check`.
//! It analyses nothing itself: the deciding rules live in /verif/sa (Python).
#![feature(rustc_private)]
#![allow(clippy::all)]

extern crate rustc_abi;
extern crate rustc_driver;
extern crate rustc_hir;
extern crate rustc_interface;
extern crate rustc_middle;
extern crate rustc_session;
extern crate rustc_span;

use rustc_driver::{Callbacks, Compilation};
use rustc_hir::def::DefKind;
use rustc_hir::def_id::{DefId, LocalDefId, LOCAL_CRATE};
use rustc_hir::intravisit::{self, Visitor};
use rustc_middle::mir::*;
use rustc_middle::ty::print::{with_crate_prefix, with_no_trimmed_paths};
use rustc_middle::ty::{self, Instance, Ty, TyCtxt, TypingEnv};
use rustc_span::{ExpnKind, Span};
use std::fmt::Write as _;

// ---------------------------------------------------------------- JSON helpers
fn esc(s: &str, out: &mut String) {
    out.push('"');
    for c in s.chars() {
        match c {
            '"' => out.push_str("\\\""),
            '\\' => out.push_str("\\\\"),
            '\n' => out.push_str("\\n"),
            '\r' => out.push_str("\\r"),
            '\t' => out.push_str("\\t"),
            c if (c as u32) < 0x20 => {
                let _ = write!(out, "\\u{:04x}", c as u32);
            }
            c => out.push(c),
        }
    }
    out.push('"');
}
fn js(s: &str) -> String {
    let mut o = String::new();
    esc(s, &mut o);
    o
}

struct Cx<'tcx> {
    tcx: TyCtxt<'tcx>,
    krate: String,
}

impl<'tcx> Cx<'tcx> {
    fn fix(&self, s: String) -> String {
        // `crate::` -> `<crate name>::` so that every path is crate-qualified
        let pat = "crate::";
        let mut out = String::with_capacity(s.len() + 16);
        let b = s.as_bytes();
        let mut i = 0;
        while i < b.len() {
            if s[i..].starts_with(pat) && (i == 0 || !(b[i - 1].is_ascii_alphanumeric() || b[i - 1] == b'_')) {
                out.push_str(&self.krate);
                out.push_str("::");
                i += pat.len();
            } else {
                let ch = s[i..].chars().next().unwrap();
                out.push(ch);
                i += ch.len_utf8();
            }
        }
        out
    }
    fn path(&self, did: DefId) -> String {
        let s = with_no_trimmed_paths!(with_crate_prefix!(self.tcx.def_path_str(did)));
        self.fix(s)
    }
    fn path_args(&self, did: DefId, args: ty::GenericArgsRef<'tcx>) -> String {
        let s = with_no_trimmed_paths!(with_crate_prefix!(self.tcx.def_path_str_with_args(did, args)));
        self.fix(s)
    }
    fn dh(&self, did: DefId) -> String {
        format!("{:?}", self.tcx.def_path_hash(did).0)
    }
    fn ty_str(&self, t: Ty<'tcx>) -> String {
        let s = with_no_trimmed_paths!(with_crate_prefix!(format!("{}", t)));
        self.fix(s)
    }
    fn line(&self, sp: Span) -> usize {
        let sp = sp.source_callsite();
        if sp.is_dummy() {
            return 0;
        }
        self.tcx.sess.source_map().lookup_char_pos(sp.lo()).line
    }
    fn file(&self, sp: Span) -> String {
        let sp = sp.source_callsite();
        if sp.is_dummy() {
            return String::new();
        }
        let f = self.tcx.sess.source_map().lookup_char_pos(sp.lo()).file;
        format!("{}", f.name.prefer_local_unconditionally())
    }
    /// outermost macro / desugaring the span comes from ("" if written by the user)
    fn expn(&self, sp: Span) -> String {
        if !sp.from_expansion() {
            return String::new();
        }
        let mut last = String::new();
        let mut chain: Vec<String> = Vec::new();
        let mut cur = sp;
        let mut n = 0;
        while cur.from_expansion() && n < 32 {
            let d = cur.ctxt().outer_expn_data();
            let name = match d.kind {
                ExpnKind::Macro(_, name) => format!("{}", name),
                ExpnKind::Desugaring(k) => format!("desugar:{:?}", k),
                ExpnKind::AstPass(k) => format!("astpass:{:?}", k),
                ExpnKind::Root => "root".to_string(),
            };
            chain.push(name.clone());
            last = name;
            cur = d.call_site;
            n += 1;
        }
        let _ = last;
        chain.join("<")
    }

    // ------------------------------------------------------------ types
    fn ty_json(&self, t: Ty<'tcx>, depth: usize) -> String {
        let mut o = String::new();
        match t.kind() {
            ty::Bool => o.push_str("{\"k\":\"bool\"}"),
            ty::Char => o.push_str("{\"k\":\"char\"}"),
            ty::Int(i) => {
                let b = i.bit_width().unwrap_or(64);
                let _ = write!(o, "{{\"k\":\"int\",\"s\":true,\"b\":{},\"n\":{}}}", b, js(i.name_str()));
            }
            ty::Uint(u) => {
                let b = u.bit_width().unwrap_or(64);
                let _ = write!(o, "{{\"k\":\"int\",\"s\":false,\"b\":{},\"n\":{}}}", b, js(u.name_str()));
            }
            ty::Float(_) => o.push_str("{\"k\":\"float\"}"),
            ty::Ref(_, inner, m) => {
                let _ = write!(
                    o,
                    "{{\"k\":\"ref\",\"mut\":{},\"to\":{}}}",
                    m.is_mut(),
                    if depth > 0 { self.ty_json(*inner, depth - 1) } else { js(&self.ty_str(*inner)) }
                );
            }
            ty::RawPtr(inner, m) => {
                let _ = write!(
                    o,
                    "{{\"k\":\"ptr\",\"mut\":{},\"to\":{}}}",
                    m.is_mut(),
                    if depth > 0 { self.ty_json(*inner, depth - 1) } else { js(&self.ty_str(*inner)) }
                );
            }
            ty::Slice(e) => {
                let _ = write!(
                    o,
                    "{{\"k\":\"slice\",\"of\":{}}}",
                    if depth > 0 { self.ty_json(*e, depth - 1) } else { js(&self.ty_str(*e)) }
                );
            }
            ty::Str => o.push_str("{\"k\":\"str\"}"),
            ty::Array(e, n) => {
                let len = n.try_to_target_usize(self.tcx);
                let _ = write!(
                    o,
                    "{{\"k\":\"array\",\"of\":{},\"len\":{}}}",
                    if depth > 0 { self.ty_json(*e, depth - 1) } else { js(&self.ty_str(*e)) },
                    match len {
                        Some(l) => l.to_string(),
                        None => "null".to_string(),
                    }
                );
            }
            ty::Adt(def, args) => {
                let mut a = String::from("[");
                let mut first = true;
                for ga in args.iter() {
                    if let Some(t) = ga.as_type() {
                        if !first {
                            a.push(',');
                        }
                        first = false;
                        if depth > 0 {
                            a.push_str(&self.ty_json(t, depth - 1));
                        } else {
                            a.push_str(&js(&self.ty_str(t)));
                        }
                    }
                }
                a.push(']');
                let _ = write!(o, "{{\"k\":\"adt\",\"p\":{},\"a\":{}}}", js(&self.path(def.did())), a);
            }
            ty::Tuple(ts) => {
                let mut a = String::from("[");
                for (i, t) in ts.iter().enumerate() {
                    if i > 0 {
                        a.push(',');
                    }
                    if depth > 0 {
                        a.push_str(&self.ty_json(t, depth - 1));
                    } else {
                        a.push_str(&js(&self.ty_str(t)));
                    }
                }
                a.push(']');
                let _ = write!(o, "{{\"k\":\"tuple\",\"e\":{}}}", a);
            }
            ty::FnDef(did, args) => {
                let _ = write!(
                    o,
                    "{{\"k\":\"fndef\",\"p\":{},\"pa\":{}}}",
                    js(&self.path(*did)),
                    js(&self.path_args(*did, args))
                );
            }
            ty::Closure(did, _) => {
                let _ = write!(o, "{{\"k\":\"closure\",\"p\":{}}}", js(&self.path(*did)));
            }
            ty::Param(p) => {
                let _ = write!(o, "{{\"k\":\"param\",\"n\":{}}}", js(p.name.as_str()));
            }
            ty::Dynamic(..) => o.push_str("{\"k\":\"dyn\"}"),
            ty::Never => o.push_str("{\"k\":\"never\"}"),
            ty::FnPtr(..) => o.push_str("{\"k\":\"fnptr\"}"),
            _ => {
                let _ = write!(o, "{{\"k\":\"other\",\"s\":{}}}", js(&self.ty_str(t)));
            }
        }
        o
    }

    // ------------------------------------------------------------ places / operands
    fn place_json(&self, body: &Body<'tcx>, p: &Place<'tcx>) -> String {
        let mut o = String::new();
        let _ = write!(o, "{{\"l\":{}", p.local.as_usize());
        if !p.projection.is_empty() {
            o.push_str(",\"pr\":[");
            let mut pty = rustc_middle::mir::PlaceTy::from_ty(body.local_decls[p.local].ty);
            for (i, elem) in p.projection.iter().enumerate() {
                if i > 0 {
                    o.push(',');
                }
                match elem {
                    ProjectionElem::Deref => o.push_str("\"*\""),
                    ProjectionElem::Field(f, _) => {
                        let mut name = String::new();
                        if let ty::Adt(def, _) = pty.ty.kind() {
                            let vidx = pty.variant_index.unwrap_or(rustc_abi::FIRST_VARIANT);
                            if def.is_enum() || def.is_struct() || def.is_union() {
                                if vidx.as_usize() < def.variants().len() {
                                    let v = def.variant(vidx);
                                    if f.as_usize() < v.fields.len() {
                                        name = v.fields[f].name.to_string();
                                    }
                                }
                            }
                        }
                        let _ = write!(o, "{{\"f\":{},\"n\":{}}}", f.as_usize(), js(&name));
                    }
                    ProjectionElem::Index(l) => {
                        let _ = write!(o, "{{\"ix\":{}}}", l.as_usize());
                    }
                    ProjectionElem::ConstantIndex { offset, min_length, from_end } => {
                        let _ = write!(o, "{{\"cix\":{},\"min\":{},\"fe\":{}}}", offset, min_length, from_end);
                    }
                    ProjectionElem::Subslice { from, to, from_end } => {
                        let _ = write!(o, "{{\"sub\":[{},{}],\"fe\":{}}}", from, to, from_end);
                    }
                    ProjectionElem::Downcast(name, v) => {
                        let n = match name {
                            Some(s) => s.to_string(),
                            None => String::new(),
                        };
                        let _ = write!(o, "{{\"dc\":{},\"v\":{}}}", js(&n), v.as_usize());
                    }
                    ProjectionElem::OpaqueCast(_) => o.push_str("\"opaque\""),
                    ProjectionElem::UnwrapUnsafeBinder(_) => o.push_str("\"unbind\""),
                }
                pty = pty.projection_ty(self.tcx, elem);
            }
            o.push(']');
            let _ = write!(o, ",\"t\":{}", js(&self.ty_str(pty.ty)));
        }
        o.push('}');
        o
    }

    fn const_json(&self, body_did: DefId, c: &ConstOperand<'tcx>) -> String {
        let mut o = String::new();
        let t = c.const_.ty();
        let _ = write!(o, "{{\"ty\":{}", js(&self.ty_str(t)));
        match t.kind() {
            ty::FnDef(did, args) => {
                let _ = write!(o, ",\"fn\":{},\"fnh\":{},\"fna\":{}", js(&self.path(*did)), js(&self.dh(*did)), js(&self.path_args(*did, args)));
            }
            _ => {
                let env = TypingEnv::post_analysis(self.tcx, body_did);
                let is_scalar = matches!(t.kind(), ty::Int(_) | ty::Uint(_) | ty::Bool | ty::Char);
                if is_scalar {
                    if let Some(si) = c.const_.try_eval_scalar_int(self.tcx, env) {
                        let bits = si.to_bits_unchecked();
                        let size = si.size().bits();
                        let v: i128 = match t.kind() {
                            ty::Int(_) => {
                                // sign extend
                                if size == 128 {
                                    bits as i128
                                } else if size == 0 {
                                    0
                                } else {
                                    let sh = 128 - size as u32;
                                    ((bits << sh) as i128) >> sh
                                }
                            }
                            _ => bits as i128,
                        };
                        if size == 128 && !matches!(t.kind(), ty::Int(_)) && bits > (i128::MAX as u128) {
                            let _ = write!(o, ",\"v\":{}", bits);
                        } else {
                            let _ = write!(o, ",\"v\":{}", v);
                        }
                    }
                }
                // reference to a constant (promoted `&CONST`, `&[1, 2, 3]`): the pointee's bytes
                if let ty::Ref(_, inner, _) = t.kind() {
                    let sized_ok = !matches!(inner.kind(), ty::Slice(_) | ty::Str | ty::Dynamic(..));
                    if sized_ok {
                        if let Ok(l) = self.tcx.layout_of(env.as_query_input(*inner)) {
                            let sz = l.size.bytes() as usize;
                            if sz > 0 && sz <= 4096 {
                                if let Ok(cv) = c.const_.eval(self.tcx, env, c.span) {
                                    if let ConstValue::Scalar(rustc_middle::mir::interpret::Scalar::Ptr(ptr, _)) = cv {
                                        let (prov, off) = ptr.into_raw_parts();
                                        let aid = prov.alloc_id();
                                        if let Some(rustc_middle::mir::interpret::GlobalAlloc::Memory(m)) = self.tcx.try_get_global_alloc(aid) {
                                            let a = m.inner();
                                            let start = off.bytes() as usize;
                                            if start + sz <= a.len() && a.provenance().ptrs().is_empty() {
                                                let bytes = a.inspect_with_uninit_and_ptr_outside_interpreter(start..start + sz);
                                                o.push_str(",\"pbytes\":\"");
                                                for b in bytes {
                                                    let _ = write!(o, "{:02x}", b);
                                                }
                                                o.push('"');
                                            }
                                        }
                                    }
                                }
                            }
                        }
                    }
                }
                // named constant?
                if let Const::Unevaluated(u, _) = c.const_ {
                    if u.promoted.is_none() {
                        let _ = write!(o, ",\"name\":{}", js(&self.path(u.def)));
                        let _ = write!(o, ",\"nameh\":{}", js(&self.dh(u.def)));
                    } else {
                        o.push_str(",\"promoted\":true");
                    }
                }
                if let Const::Ty(_, ct) = c.const_ {
                    let _ = write!(o, ",\"tyconst\":{}", js(&format!("{:?}", ct)));
                }
            }
        }
        o.push('}');
        o
    }

    fn op_json(&self, body: &Body<'tcx>, did: DefId, op: &Operand<'tcx>) -> String {
        match op {
            Operand::Copy(p) => format!("{{\"cp\":{}}}", self.place_json(body, p)),
            Operand::Move(p) => format!("{{\"mv\":{}}}", self.place_json(body, p)),
            Operand::Constant(c) => format!("{{\"c\":{}}}", self.const_json(did, c)),
            #[allow(unreachable_patterns)]
            _ => "{\"rt\":true}".to_string(),
        }
    }

    fn rvalue_json(&self, body: &Body<'tcx>, did: DefId, rv: &Rvalue<'tcx>) -> String {
        let mut o = String::new();
        match rv {
            Rvalue::Use(op, ..) => {
                let _ = write!(o, "{{\"k\":\"use\",\"o\":{}}}", self.op_json(body, did, op));
            }
            Rvalue::Repeat(op, n) => {
                let len = n.try_to_target_usize(self.tcx);
                let _ = write!(
                    o,
                    "{{\"k\":\"repeat\",\"o\":{},\"n\":{}}}",
                    self.op_json(body, did, op),
                    match len {
                        Some(l) => l.to_string(),
                        None => "null".into(),
                    }
                );
            }
            Rvalue::Ref(_, bk, p) => {
                let m = matches!(bk, BorrowKind::Mut { .. });
                let _ = write!(o, "{{\"k\":\"ref\",\"mut\":{},\"p\":{}}}", m, self.place_json(body, p));
            }
            Rvalue::RawPtr(k, p) => {
                let m = matches!(k, RawPtrKind::Mut);
                let _ = write!(o, "{{\"k\":\"rawptr\",\"mut\":{},\"p\":{}}}", m, self.place_json(body, p));
            }
            Rvalue::ThreadLocalRef(d) => {
                let _ = write!(o, "{{\"k\":\"tls\",\"p\":{}}}", js(&self.path(*d)));
            }
            Rvalue::Cast(ck, op, t) => {
                let ckn = match ck {
                    CastKind::IntToInt => "IntToInt".to_string(),
                    CastKind::Transmute => "Transmute".to_string(),
                    CastKind::PtrToPtr => "PtrToPtr".to_string(),
                    CastKind::PointerCoercion(pc, _) => format!("Coerce:{:?}", pc),
                    other => format!("{:?}", other),
                };
                let _ = write!(
                    o,
                    "{{\"k\":\"cast\",\"ck\":{},\"o\":{},\"ty\":{},\"tj\":{}}}",
                    js(&ckn),
                    self.op_json(body, did, op),
                    js(&self.ty_str(*t)),
                    self.ty_json(*t, 1)
                );
            }
            Rvalue::BinaryOp(op, ab) => {
                let (a, b) = &**ab;
                let _ = write!(
                    o,
                    "{{\"k\":\"bin\",\"op\":{},\"a\":{},\"b\":{}}}",
                    js(&format!("{:?}", op)),
                    self.op_json(body, did, a),
                    self.op_json(body, did, b)
                );
            }
            Rvalue::UnaryOp(op, a) => {
                let _ = write!(
                    o,
                    "{{\"k\":\"un\",\"op\":{},\"o\":{}}}",
                    js(&format!("{:?}", op)),
                    self.op_json(body, did, a)
                );
            }
            Rvalue::Discriminant(p) => {
                let _ = write!(o, "{{\"k\":\"discr\",\"p\":{}}}", self.place_json(body, p));
            }
            Rvalue::Aggregate(kind, ops) => {
                let mut os = String::from("[");
                for (i, op) in ops.iter().enumerate() {
                    if i > 0 {
                        os.push(',');
                    }
                    os.push_str(&self.op_json(body, did, op));
                }
                os.push(']');
                match &**kind {
                    AggregateKind::Array(_) => {
                        let _ = write!(o, "{{\"k\":\"agg\",\"ak\":\"array\",\"ops\":{}}}", os);
                    }
                    AggregateKind::Tuple => {
                        let _ = write!(o, "{{\"k\":\"agg\",\"ak\":\"tuple\",\"ops\":{}}}", os);
                    }
                    AggregateKind::Adt(adid, vidx, _, _, active) => {
                        let def = self.tcx.adt_def(*adid);
                        let v = def.variant(*vidx);
                        let mut fns = String::from("[");
                        if let Some(af) = active {
                            fns.push_str(&js(v.fields[*af].name.as_str()));
                        } else {
                            for (i, f) in v.fields.iter().enumerate() {
                                if i > 0 {
                                    fns.push(',');
                                }
                                fns.push_str(&js(f.name.as_str()));
                            }
                        }
                        fns.push(']');
                        let _ = write!(
                            o,
                            "{{\"k\":\"agg\",\"ak\":\"adt\",\"adt\":{},\"adth\":{},\"variant\":{},\"vi\":{},\"fields\":{},\"ops\":{}}}",
                            js(&self.path(*adid)),
                            js(&self.dh(*adid)),
                            js(v.name.as_str()),
                            vidx.as_usize(),
                            fns,
                            os
                        );
                    }
                    AggregateKind::Closure(cdid, _) => {
                        let _ = write!(
                            o,
                            "{{\"k\":\"agg\",\"ak\":\"closure\",\"def\":{},\"defh\":{},\"ops\":{}}}",
                            js(&self.path(*cdid)),
                            js(&self.dh(*cdid)),
                            os
                        );
                    }
                    AggregateKind::RawPtr(..) => {
                        let _ = write!(o, "{{\"k\":\"agg\",\"ak\":\"rawptr\",\"ops\":{}}}", os);
                    }
                    _ => {
                        let _ = write!(o, "{{\"k\":\"agg\",\"ak\":\"other\",\"ops\":{}}}", os);
                    }
                }
            }
            Rvalue::CopyForDeref(p) => {
                let _ = write!(o, "{{\"k\":\"use\",\"o\":{{\"cp\":{}}},\"cfd\":true}}", self.place_json(body, p));
            }
            #[allow(unreachable_patterns)]
            other => {
                let _ = write!(o, "{{\"k\":\"other\",\"s\":{}}}", js(&format!("{:?}", other)));
            }
        }
        o
    }

    fn body_json(&self, ldid: LocalDefId, unsafe_blocks: &[(usize, usize)]) -> Option<String> {
        let tcx = self.tcx;
        let did = ldid.to_def_id();
        let kind = tcx.def_kind(did);
        let body: &Body<'tcx> = match kind {
            DefKind::Fn | DefKind::AssocFn | DefKind::Closure => tcx.optimized_mir(did),
            DefKind::Const { .. } | DefKind::AssocConst { .. } | DefKind::Static { .. } | DefKind::AnonConst | DefKind::InlineConst => {
                tcx.mir_for_ctfe(did)
            }
            _ => return None,
        };
        let mut o = String::with_capacity(4096);
        let _ = write!(o, "{{\"id\":{}", js(&self.path(did)));
        let _ = write!(o, ",\"h\":{}", js(&self.dh(did)));
        let _ = write!(o, ",\"kind\":{}", js(&format!("{:?}", kind)));
        if matches!(kind, DefKind::Fn | DefKind::AssocFn) {
            let vis = tcx.visibility(did);
            let _ = write!(o, ",\"pub\":{}", vis.is_public());
            let sig = tcx.fn_sig(did).skip_binder().skip_binder();
            let _ = write!(o, ",\"unsafe\":{}", !sig.safety().is_safe());
            let _ = write!(o, ",\"sig\":{}", js(&self.ty_str(Ty::new_fn_ptr(tcx, tcx.fn_sig(did).instantiate_identity().skip_norm_wip()))));
        }
        // parent impl / trait
        if let Some(parent) = tcx.opt_parent(did) {
            match tcx.def_kind(parent) {
                DefKind::Impl { of_trait } => {
                    let st = tcx.type_of(parent).instantiate_identity().skip_norm_wip();
                    let _ = write!(o, ",\"self_ty\":{}", js(&self.ty_str(st)));
                    if of_trait {
                        let tr = tcx.impl_trait_ref(parent).instantiate_identity().skip_norm_wip();
                        let _ = write!(o, ",\"trait\":{}", js(&self.path(tr.def_id)));
                    }
                }
                DefKind::Trait => {
                    let _ = write!(o, ",\"in_trait\":{}", js(&self.path(parent)));
                }
                _ => {}
            }
            if matches!(kind, DefKind::Closure) {
                let _ = write!(o, ",\"parent\":{}", js(&self.path(tcx.typeck_root_def_id(did))));
            }
        }
        if matches!(kind, DefKind::Fn | DefKind::AssocFn | DefKind::Closure) {
            let g = tcx.generics_of(did);
            o.push_str(",\"generics\":[");
            let mut first = true;
            for i in 0..g.count() {
                let pa = g.param_at(i, tcx);
                if matches!(pa.kind, ty::GenericParamDefKind::Type { .. }) {
                    if !first {
                        o.push(',');
                    }
                    first = false;
                    o.push_str(&js(pa.name.as_str()));
                }
            }
            o.push(']');
        }
        let _ = write!(o, ",\"file\":{}", js(&self.file(body.span)));
        let sm = tcx.sess.source_map();
        if !body.span.is_dummy() {
            let lo = sm.lookup_char_pos(body.span.lo()).line;
            let hi = sm.lookup_char_pos(body.span.hi()).line;
            let _ = write!(o, ",\"lo\":{},\"hi\":{}", lo, hi);
        }
        let _ = write!(o, ",\"from_exp\":{}", js(&self.expn(body.span)));
        let _ = write!(o, ",\"argc\":{}", body.arg_count);
        // unsafe blocks (line ranges)
        o.push_str(",\"unsafe_blocks\":[");
        for (i, (a, b)) in unsafe_blocks.iter().enumerate() {
            if i > 0 {
                o.push(',');
            }
            let _ = write!(o, "[{},{}]", a, b);
        }
        o.push(']');
        // locals
        let mut names: Vec<String> = vec![String::new(); body.local_decls.len()];
        for vdi in &body.var_debug_info {
            if let VarDebugInfoContents::Place(p) = &vdi.value {
                if p.projection.is_empty() {
                    names[p.local.as_usize()] = vdi.name.to_string();
                } else if names[p.local.as_usize()].is_empty() {
                    // closure captures: _1.field
                    // recorded separately below
                }
            }
        }
        o.push_str(",\"locals\":[");
        for (i, (l, d)) in body.local_decls.iter_enumerated().enumerate() {
            if i > 0 {
                o.push(',');
            }
            let _ = write!(
                o,
                "{{\"ty\":{},\"tj\":{},\"mut\":{}",
                js(&self.ty_str(d.ty)),
                self.ty_json(d.ty, 2),
                d.mutability.is_mut()
            );
            if !names[l.as_usize()].is_empty() {
                let _ = write!(o, ",\"name\":{}", js(&names[l.as_usize()]));
            }
            o.push('}');
        }
        o.push(']');
        // debug info for projected places (closure captures etc.)
        o.push_str(",\"dbg\":[");
        let mut first = true;
        for vdi in &body.var_debug_info {
            if let VarDebugInfoContents::Place(p) = &vdi.value {
                if !p.projection.is_empty() {
                    if !first {
                        o.push(',');
                    }
                    first = false;
                    let _ = write!(o, "{{\"name\":{},\"p\":{}}}", js(vdi.name.as_str()), self.place_json(body, p));
                }
            }
        }
        o.push(']');
        // blocks
        o.push_str(",\"blocks\":[");
        for (bi, (_bb, data)) in body.basic_blocks.iter_enumerated().enumerate() {
            if bi > 0 {
                o.push(',');
            }
            let _ = write!(o, "{{\"cleanup\":{},\"st\":[", data.is_cleanup);
            let mut firsts = true;
            for st in &data.statements {
                let s = match &st.kind {
                    StatementKind::Assign(b) => {
                        let (p, rv) = &**b;
                        Some(format!(
                            "{{\"k\":\"assign\",\"p\":{},\"r\":{}",
                            self.place_json(body, p),
                            self.rvalue_json(body, did, rv)
                        ))
                    }
                    StatementKind::SetDiscriminant { place, variant_index } => Some(format!(
                        "{{\"k\":\"setdiscr\",\"p\":{},\"v\":{}",
                        self.place_json(body, place),
                        variant_index.as_usize()
                    )),
                    StatementKind::StorageDead(l) => Some(format!("{{\"k\":\"dead\",\"l\":{}", l.as_usize())),
                    StatementKind::Intrinsic(i) => Some(format!("{{\"k\":\"intrinsic\",\"s\":{}", js(&format!("{:?}", i)))),
                    _ => None,
                };
                if let Some(mut s) = s {
                    if !firsts {
                        o.push(',');
                    }
                    firsts = false;
                    let sp = st.source_info.span;
                    let _ = write!(s, ",\"ln\":{}", self.line(sp));
                    let e = self.expn(sp);
                    if !e.is_empty() {
                        let _ = write!(s, ",\"exp\":{}", js(&e));
                    }
                    s.push('}');
                    o.push_str(&s);
                }
            }
            o.push_str("],\"term\":");
            let term = data.terminator();
            let sp = term.source_info.span;
            let mut t = String::new();
            match &term.kind {
                TerminatorKind::Goto { target } => {
                    let _ = write!(t, "{{\"k\":\"goto\",\"t\":{}", target.as_usize());
                }
                TerminatorKind::SwitchInt { discr, targets } => {
                    let _ = write!(t, "{{\"k\":\"switch\",\"o\":{},\"targets\":[", self.op_json(body, did, discr));
                    for (i, (v, bb)) in targets.iter().enumerate() {
                        if i > 0 {
                            t.push(',');
                        }
                        let _ = write!(t, "[{},{}]", v, bb.as_usize());
                    }
                    let _ = write!(t, "],\"otherwise\":{}", targets.otherwise().as_usize());
                    // discriminant type
                    let dty = discr.ty(&body.local_decls, tcx);
                    let _ = write!(t, ",\"dty\":{}", js(&self.ty_str(dty)));
                }
                TerminatorKind::UnwindResume => t.push_str("{\"k\":\"resume\""),
                TerminatorKind::UnwindTerminate(_) => t.push_str("{\"k\":\"terminate\""),
                TerminatorKind::Return => t.push_str("{\"k\":\"return\""),
                TerminatorKind::Unreachable => t.push_str("{\"k\":\"unreachable\""),
                TerminatorKind::Drop { place, target, unwind, .. } => {
                    let _ = write!(
                        t,
                        "{{\"k\":\"drop\",\"p\":{},\"t\":{},\"uw\":{}",
                        self.place_json(body, place),
                        target.as_usize(),
                        match unwind {
                            UnwindAction::Cleanup(bb) => bb.as_usize().to_string(),
                            _ => "null".to_string(),
                        }
                    );
                }
                TerminatorKind::Call { func, args, destination, target, unwind, .. } => {
                    t.push_str("{\"k\":\"call\"");
                    let fty = func.ty(&body.local_decls, tcx);
                    match fty.kind() {
                        ty::FnDef(cdid, cargs) => {
                            let _ = write!(t, ",\"f\":{}", js(&self.path(*cdid)));
                            let _ = write!(t, ",\"fh\":{}", js(&self.dh(*cdid)));
                            let _ = write!(t, ",\"fa\":{}", js(&self.path_args(*cdid, cargs)));
                            // resolve
                            let env = TypingEnv::post_analysis(tcx, did);
                            let res = Instance::try_resolve(tcx, env, *cdid, cargs);
                            match res {
                                Ok(Some(inst)) => {
                                    let rd = inst.def_id();
                                    let _ = write!(t, ",\"rf\":{}", js(&self.path(rd)));
                                    let _ = write!(t, ",\"rfh\":{}", js(&self.dh(rd)));
                                    let kindn = match inst.def {
                                        ty::InstanceKind::Item(_) => "item",
                                        ty::InstanceKind::Virtual(..) => "virtual",
                                        ty::InstanceKind::Intrinsic(_) => "intrinsic",
                                        ty::InstanceKind::ClosureOnceShim { .. } => "closure_once",
                                        ty::InstanceKind::FnPtrShim(..) => "fnptr_shim",
                                        ty::InstanceKind::DropGlue(..) => "drop_glue",
                                        ty::InstanceKind::CloneShim(..) => "clone_shim",
                                        _ => "other",
                                    };
                                    let _ = write!(t, ",\"rk\":{}", js(kindn));
                                }
                                _ => {
                                    t.push_str(",\"rf\":null");
                                }
                            }
                            // trait of callee, if any
                            if let Some(tr) = tcx.trait_of_assoc(*cdid) {
                                let _ = write!(t, ",\"tr\":{}", js(&self.path(tr)));
                                let _ = write!(t, ",\"trh\":{}", js(&self.dh(tr)));
                            }
                            // type args
                            t.push_str(",\"targs\":[");
                            let mut f = true;
                            for ga in cargs.iter() {
                                if let Some(ty_) = ga.as_type() {
                                    if !f {
                                        t.push(',');
                                    }
                                    f = false;
                                    t.push_str(&js(&self.ty_str(ty_)));
                                }
                            }
                            t.push(']');
                        }
                        _ => {
                            let _ = write!(t, ",\"f\":null,\"fop\":{}", self.op_json(body, did, func));
                            let _ = write!(t, ",\"fty\":{}", js(&self.ty_str(fty)));
                        }
                    }
                    t.push_str(",\"args\":[");
                    for (i, a) in args.iter().enumerate() {
                        if i > 0 {
                            t.push(',');
                        }
                        t.push_str(&self.op_json(body, did, &a.node));
                    }
                    let _ = write!(t, "],\"dest\":{}", self.place_json(body, destination));
                    let _ = write!(
                        t,
                        ",\"t\":{}",
                        match target {
                            Some(bb) => bb.as_usize().to_string(),
                            None => "null".into(),
                        }
                    );
                    let _ = write!(
                        t,
                        ",\"uw\":{}",
                        match unwind {
                            UnwindAction::Cleanup(bb) => bb.as_usize().to_string(),
                            _ => "null".to_string(),
                        }
                    );
                }
                TerminatorKind::Assert { cond, expected, msg, target, .. } => {
                    let (mk, ops): (String, Vec<&Operand<'tcx>>) = match &**msg {
                        AssertKind::BoundsCheck { len, index } => ("BoundsCheck".into(), vec![len, index]),
                        AssertKind::Overflow(op, a, b) => (format!("Overflow:{:?}", op), vec![a, b]),
                        AssertKind::OverflowNeg(a) => ("OverflowNeg".into(), vec![a]),
                        AssertKind::DivisionByZero(a) => ("DivisionByZero".into(), vec![a]),
                        AssertKind::RemainderByZero(a) => ("RemainderByZero".into(), vec![a]),
                        AssertKind::MisalignedPointerDereference { .. } => ("MisalignedPointer".into(), vec![]),
                        AssertKind::NullPointerDereference => ("NullPointer".into(), vec![]),
                        other => (format!("{:?}", other), vec![]),
                    };
                    let _ = write!(
                        t,
                        "{{\"k\":\"assert\",\"cond\":{},\"expected\":{},\"msg\":{},\"ops\":[",
                        self.op_json(body, did, cond),
                        expected,
                        js(&mk)
                    );
                    for (i, a) in ops.iter().enumerate() {
                        if i > 0 {
                            t.push(',');
                        }
                        t.push_str(&self.op_json(body, did, a));
                    }
                    let _ = write!(t, "],\"t\":{}", target.as_usize());
                }
                TerminatorKind::FalseEdge { real_target, .. } => {
                    let _ = write!(t, "{{\"k\":\"goto\",\"t\":{}", real_target.as_usize());
                }
                TerminatorKind::FalseUnwind { real_target, .. } => {
                    let _ = write!(t, "{{\"k\":\"goto\",\"t\":{}", real_target.as_usize());
                }
                other => {
                    let _ = write!(t, "{{\"k\":\"other\",\"s\":{}", js(&format!("{:?}", other)));
                }
            }
            let _ = write!(t, ",\"ln\":{}", self.line(sp));
            let e = self.expn(sp);
            if !e.is_empty() {
                let _ = write!(t, ",\"exp\":{}", js(&e));
            }
            t.push('}');
            o.push_str(&t);
            o.push('}');
        }
        o.push_str("]}");
        Some(o)
    }
}

// ---------------------------------------------------------------- unsafe block collection (HIR)
struct UnsafeVisitor<'tcx> {
    tcx: TyCtxt<'tcx>,
    found: Vec<(usize, usize)>,
}
impl<'tcx> Visitor<'tcx> for UnsafeVisitor<'tcx> {
    type NestedFilter = rustc_middle::hir::nested_filter::OnlyBodies;
    fn maybe_tcx(&mut self) -> Self::MaybeTyCtxt {
        self.tcx
    }
    fn visit_block(&mut self, b: &'tcx rustc_hir::Block<'tcx>) {
        if let rustc_hir::BlockCheckMode::UnsafeBlock(rustc_hir::UnsafeSource::UserProvided) = b.rules {
            if !b.span.from_expansion() || true {
                let sm = self.tcx.sess.source_map();
                let sp = b.span.source_callsite();
                let lo = sm.lookup_char_pos(sp.lo()).line;
                let hi = sm.lookup_char_pos(sp.hi()).line;
                let _ = b.span.from_expansion();
                self.found.push((lo, hi));
            }
        }
        intravisit::walk_block(self, b);
    }
}

struct Cb;

impl Callbacks for Cb {
    fn after_analysis<'tcx>(&mut self, _c: &rustc_interface::interface::Compiler, tcx: TyCtxt<'tcx>) -> Compilation {
        let out_dir = match std::env::var("MIRFACTS_OUT") {
            Ok(d) => d,
            Err(_) => return Compilation::Continue,
        };
        let krate = tcx.crate_name(LOCAL_CRATE).to_string();
        if krate.starts_with("build_script_") {
            return Compilation::Continue;
        }
        if let Ok(only) = std::env::var("MIRFACTS_ONLY") {
            if !only.split(',').any(|c| c == krate) {
                return Compilation::Continue;
            }
        }
        let cx = Cx { tcx, krate: krate.clone() };
        let is_test = tcx.sess.opts.test;
        let crate_types: Vec<String> = tcx.crate_types().iter().map(|c| format!("{:?}", c)).collect();
        let mut o = String::with_capacity(1 << 20);
        let _ = write!(
            o,
            "{{\"crate\":{},\"test\":{},\"crate_types\":{},\"id\":{}",
            js(&krate),
            is_test,
            js(&crate_types.join(",")),
            js(&format!("{:x}", tcx.stable_crate_id(LOCAL_CRATE).as_u64()))
        );
        // cfgs seen (to assert no nightly-only cfg is relied on)
        o.push_str(",\"bodies\":[\n");
        let mut n = 0usize;
        for ldid in tcx.mir_keys(()) {
            let ldid = *ldid;
            // unsafe blocks of this body
            let mut uv = UnsafeVisitor { tcx, found: vec![] };
            if let Some(body_id) = tcx.hir_maybe_body_owned_by(ldid) {
                // do not descend into nested bodies twice: closures are their own mir_keys,
                // but OnlyBodies filter descends; record only for non-closure owners and
                // attribute by line range in the analysis
                if !matches!(tcx.def_kind(ldid.to_def_id()), DefKind::Closure) {
                    uv.visit_body(body_id);
                }
            }
            if let Some(s) = cx.body_json(ldid, &uv.found) {
                if n > 0 {
                    o.push_str(",\n");
                }
                o.push_str(&s);
                n += 1;
            }
        }
        o.push_str("\n]");
        // ADTs, consts, impls
        o.push_str(",\"adts\":[");
        let mut first = true;
        let mut impls = String::new();
        let mut consts = String::new();
        let mut fns = String::new();
        for id in tcx.hir_free_items() {
            let did = id.owner_id.to_def_id();
            let kind = tcx.def_kind(did);
            match kind {
                DefKind::Struct | DefKind::Enum | DefKind::Union => {
                    let def = tcx.adt_def(did);
                    if !first {
                        o.push(',');
                    }
                    first = false;
                    let mut size_s = "null".to_string();
                    let mut align_s = "null".to_string();
                    if tcx.generics_of(did).count() == 0 {
                        let t = tcx.type_of(did).instantiate_identity().skip_norm_wip();
                        let env = TypingEnv::fully_monomorphized();
                        if let Ok(l) = tcx.layout_of(env.as_query_input(t)) {
                            size_s = l.size.bytes().to_string();
                            align_s = l.align.abi.bytes().to_string();
                        }
                    }
                    let _ = write!(
                        o,
                        "{{\"p\":{},\"h\":{},\"kind\":{},\"repr_c\":{},\"repr_packed\":{},\"repr_transparent\":{},\"size\":{},\"align\":{},\"file\":{},\"ln\":{},\"variants\":[",
                        js(&cx.path(did)),
                        js(&cx.dh(did)),
                        js(&format!("{:?}", kind)),
                        def.repr().c(),
                        def.repr().packed(),
                        def.repr().transparent(),
                        size_s,
                        align_s,
                        js(&cx.file(tcx.def_span(did))),
                        cx.line(tcx.def_span(did))
                    );
                    for (vi, v) in def.variants().iter().enumerate() {
                        if vi > 0 {
                            o.push(',');
                        }
                        let discr = if def.is_enum() {
                            let d = def.discriminant_for_variant(tcx, rustc_abi::VariantIdx::from_usize(vi));
                            format!("{}", d.val)
                        } else {
                            "0".to_string()
                        };
                        let _ = write!(o, "{{\"name\":{},\"discr\":{},\"fields\":[", js(v.name.as_str()), js(&discr));
                        for (fi, f) in v.fields.iter().enumerate() {
                            if fi > 0 {
                                o.push(',');
                            }
                            let fty0 = tcx.type_of(f.did).instantiate_identity().skip_norm_wip();
                            let fty = if tcx.generics_of(did).count() == 0 {
                                tcx.try_normalize_erasing_regions(TypingEnv::fully_monomorphized(), rustc_middle::ty::Unnormalized::new_wip(fty0)).unwrap_or(fty0)
                            } else {
                                fty0
                            };
                            let _ = write!(
                                o,
                                "{{\"n\":{},\"ty\":{},\"tj\":{},\"pub\":{}}}",
                                js(f.name.as_str()),
                                js(&cx.ty_str(fty)),
                                cx.ty_json(fty, 2),
                                f.vis.is_public()
                            );
                        }
                        o.push_str("]}");
                    }
                    o.push_str("]}");
                }
                DefKind::Impl { of_trait } => {
                    if !impls.is_empty() {
                        impls.push(',');
                    }
                    let st = tcx.type_of(did).instantiate_identity().skip_norm_wip();
                    let (tr, uns, trh) = if of_trait {
                        let trf = tcx.impl_trait_ref(did).instantiate_identity().skip_norm_wip();
                        let hdr = tcx.impl_trait_header(did);
                        (cx.path(trf.def_id), !hdr.safety.is_safe(), cx.dh(trf.def_id))
                    } else {
                        (String::new(), false, String::new())
                    };
                    let sp = tcx.def_span(did);
                    let _ = write!(
                        impls,
                        "{{\"self_ty\":{},\"trait\":{},\"trait_h\":{},\"unsafe\":{},\"file\":{},\"ln\":{},\"exp\":{},\"items\":[",
                        js(&cx.ty_str(st)),
                        js(&tr),
                        js(&trh),
                        uns,
                        js(&cx.file(sp)),
                        cx.line(sp),
                        js(&cx.expn(sp))
                    );
                    for (i, it) in tcx.associated_item_def_ids(did).iter().enumerate() {
                        if i > 0 {
                            impls.push(',');
                        }
                        impls.push_str(&js(&cx.path(*it)));
                    }
                    impls.push_str("]}");
                }
                DefKind::Const { .. } | DefKind::Static { .. } => {
                    if let Some(s) = const_entry(&cx, did) {
                        if !consts.is_empty() {
                            consts.push(',');
                        }
                        consts.push_str(&s);
                    }
                }
                DefKind::Trait => {
                    if !fns.is_empty() {
                        fns.push(',');
                    }
                    let _ = write!(fns, "{{\"p\":{},\"h\":{}}}", js(&cx.path(did)), js(&cx.dh(did)));
                }
                _ => {}
            }
        }
        o.push(']');
        // associated consts
        for id in tcx.hir_crate_items(()).impl_items() {
            let did = id.owner_id.to_def_id();
            if matches!(tcx.def_kind(did), DefKind::AssocConst { .. }) {
                if let Some(s) = const_entry(&cx, did) {
                    if !consts.is_empty() {
                        consts.push(',');
                    }
                    consts.push_str(&s);
                }
            }
        }
        let _ = write!(o, ",\"impls\":[{}]", impls);
        let _ = write!(o, ",\"traits\":[{}]", fns);
        let _ = write!(o, ",\"consts\":[{}]", consts);
        let _ = write!(o, ",\"nbodies\":{}}}\n", n);
        let fname = format!(
            "{}/{}-{:x}{}.json",
            out_dir,
            krate,
            tcx.stable_crate_id(LOCAL_CRATE).as_u64(),
            if is_test { "-test" } else { "" }
        );
        let tmp = format!("{}.tmp{}", fname, std::process::id());
        if std::fs::write(&tmp, o.as_bytes()).is_ok() {
            let _ = std::fs::rename(&tmp, &fname);
        }
        Compilation::Continue
    }
}

fn const_entry<'tcx>(cx: &Cx<'tcx>, did: DefId) -> Option<String> {
    let tcx = cx.tcx;
    let generics = tcx.generics_of(did);
    if generics.count() != 0 {
        return None;
    }
    let t = tcx.type_of(did).instantiate_identity().skip_norm_wip();
    let mut s = String::new();
    let sp = tcx.def_span(did);
    let _ = write!(
        s,
        "{{\"p\":{},\"h\":{},\"ty\":{},\"tj\":{},\"file\":{},\"ln\":{}",
        js(&cx.path(did)),
        js(&cx.dh(did)),
        js(&cx.ty_str(t)),
        cx.ty_json(t, 2),
        js(&cx.file(sp)),
        cx.line(sp)
    );
    let env = TypingEnv::fully_monomorphized();
    let is_static = matches!(tcx.def_kind(did), DefKind::Static { .. });
    let layout = tcx.layout_of(env.as_query_input(t)).ok();
    if let Some(l) = &layout {
        let _ = write!(s, ",\"size\":{}", l.size.bytes());
    }
    if is_static {
        if let Ok(alloc) = tcx.eval_static_initializer(did) {
            let a = alloc.inner();
            if a.provenance().ptrs().is_empty() && a.len() <= (1 << 17) {
                let bytes = a.inspect_with_uninit_and_ptr_outside_interpreter(0..a.len());
                s.push_str(",\"bytes\":\"");
                for b in bytes {
                    let _ = write!(s, "{:02x}", b);
                }
                s.push('"');
            }
        }
    } else if let Ok(cv) = tcx.const_eval_poly(did) {
        use rustc_middle::mir::ConstValue;
        match cv {
            ConstValue::Scalar(rustc_middle::mir::interpret::Scalar::Ptr(ptr, _)) => {
                // `&'static [u8; N]` and friends: the pointee's bytes
                if let ty::Ref(_, inner, _) = t.kind() {
                    if !matches!(inner.kind(), ty::Slice(_) | ty::Str | ty::Dynamic(..)) {
                        if let Ok(l) = tcx.layout_of(env.as_query_input(*inner)) {
                            let sz = l.size.bytes() as usize;
                            let (prov, off) = ptr.into_raw_parts();
                            if let Some(rustc_middle::mir::interpret::GlobalAlloc::Memory(m)) = tcx.try_get_global_alloc(prov.alloc_id()) {
                                let a = m.inner();
                                let start = off.bytes() as usize;
                                if sz <= 4096 && start + sz <= a.len() && a.provenance().ptrs().is_empty() {
                                    let bytes = a.inspect_with_uninit_and_ptr_outside_interpreter(start..start + sz);
                                    s.push_str(",\"pbytes\":\"");
                                    for b in bytes {
                                        let _ = write!(s, "{:02x}", b);
                                    }
                                    s.push('"');
                                }
                            }
                        }
                    }
                }
            }
            ConstValue::Slice { alloc_id, meta } => {
                // `&'static str` / `&'static [u8]`: the pointee's bytes
                if let ty::Ref(_, inner, _) = t.kind() {
                    let elem = match inner.kind() {
                        ty::Str => Some(1usize),
                        ty::Slice(e) if matches!(e.kind(), ty::Uint(ty::UintTy::U8)) => Some(1usize),
                        _ => None,
                    };
                    if let (Some(_), Some(rustc_middle::mir::interpret::GlobalAlloc::Memory(m))) = (elem, tcx.try_get_global_alloc(alloc_id)) {
                        let a = m.inner();
                        let n = meta as usize;
                        if n <= 4096 && n <= a.len() && a.provenance().ptrs().is_empty() {
                            let bytes = a.inspect_with_uninit_and_ptr_outside_interpreter(0..n);
                            s.push_str(",\"pbytes\":\"");
                            for b in bytes {
                                let _ = write!(s, "{:02x}", b);
                            }
                            s.push('"');
                        }
                    }
                }
            }
            ConstValue::Scalar(sc) => {
                if let Ok(si) = sc.try_to_scalar_int() {
                    let bits = si.to_bits_unchecked();
                    let size = si.size().bits();
                    let signed = matches!(t.kind(), ty::Int(_));
                    if signed && size > 0 && size < 128 {
                        let sh = 128 - size as u32;
                        let v = ((bits << sh) as i128) >> sh;
                        let _ = write!(s, ",\"v\":{}", v);
                    } else if signed {
                        let _ = write!(s, ",\"v\":{}", bits as i128);
                    } else {
                        let _ = write!(s, ",\"v\":{}", bits);
                    }
                }
            }
            ConstValue::ZeroSized => {
                s.push_str(",\"zst\":true");
            }
            ConstValue::Indirect { alloc_id, offset } => {
                if let Some(l) = &layout {
                    let ga = tcx.global_alloc(alloc_id);
                    if let rustc_middle::mir::interpret::GlobalAlloc::Memory(m) = ga {
                        let a = m.inner();
                        let start = offset.bytes() as usize;
                        let end = start + l.size.bytes() as usize;
                        if end <= a.len() && a.provenance().ptrs().is_empty() && (end - start) <= (1 << 17) {
                            let bytes = a.inspect_with_uninit_and_ptr_outside_interpreter(start..end);
                            s.push_str(",\"bytes\":\"");
                            for b in bytes {
                                let _ = write!(s, "{:02x}", b);
                            }
                            s.push('"');
                        }
                    }
                }
            }
            _ => {}
        }
    }
    s.push('}');
    Some(s)
}

fn main() {
    let mut args: Vec<String> = std::env::args().collect();
    // RUSTC_WORKSPACE_WRAPPER: argv[1] is the real rustc path
    if args.len() > 1 && (args[1].ends_with("rustc") || args[1].contains("/rustc")) {
        args.remove(1);
    }
    let mut cb = Cb;
    rustc_driver::run_compiler(&args, &mut cb);
}
